"""Generic symbolic sweep over `dr::Builder` methods (shared by C06, C12, C13): argument synthesis from the MIR
signature, execution from constructed states, and structural inspection of the resulting module."""
import itertools
import re
import z3
import sym
import mir
from mir import split_top

import c12 as base   # state construction, models, `same`


def m_identity(engine, st, fr, callee, args, ops):
    return args[0]


def m_map(engine, st, fr, callee, args, ops):
    return sym.Adt("Mapped", None, [args[0], args[1]])


def m_extend(engine, st, fr, callee, args, ops):
    r = args[0]
    v = sym._deref_arg(engine, st, r)
    if not isinstance(v, sym.Arr):
        raise mir.Unsupported("extend of %r" % (v,))
    engine.write_at(st, r.root, list(r.path), sym.Arr(v.items + (sym.Adt("Extended", None, [args[1]]),), v.kind))
    return sym.UNIT


def m_into_string(engine, st, fr, callee, args, ops):
    return sym.Adt("String", None, [args[0]])


def m_opaque_next(engine, st, fr, callee, args, ops):
    """next() of an opaque iterator argument: one generic element, then None (the loop body is index-independent)."""
    r = args[0]
    it = sym._deref_arg(engine, st, r)
    if isinstance(it, sym.Adt) and it.ty == "Exhausted":
        return sym.Adt("Option", "None", [])
    name = it.name if isinstance(it, sym.Sym) else "iter"
    ety = "?"
    m = re.search(r"Item = (.*)>$", it.ty) if isinstance(it, sym.Sym) else None
    if m:
        ety = m.group(1)
    engine.write_at(st, r.root, list(r.path), sym.Adt("Exhausted", None, [it]))
    return sym.Fork([(True, sym.Adt("Option", "None", []), ("iter", name, 0)),
                     (True, sym.Adt("Option", "Some", [engine.mk_sym(ety, name + ".elem")]), ("iter", name, 1))])


def m_as_ref_slice(engine, st, fr, callee, args, ops):
    cell = ("h", engine.fresh_name("slice"))
    st.mem[cell] = sym.Arr([z3.BitVec(engine.fresh_name("w"), 32), z3.BitVec(engine.fresh_name("w"), 32)], "arr")     # two words: duplicates are possible
    return sym.Ref(cell, ())


def m_slice_into_iter(engine, st, fr, callee, args, ops):
    return sym.Adt("SliceIterC", None, [args[0], z3.BitVecVal(0, 64)])


EXTRA_MODELS = [
    (r"^<impl IntoIterator<.*> as IntoIterator>::into_iter$", m_identity),
    (r"^<<impl IntoIterator<.*> as IntoIterator>::IntoIter as Iterator>::map::<", m_map),
    (r"^<<impl IntoIterator<.*> as IntoIterator>::IntoIter as Iterator>::next$", m_opaque_next),
    (r"^<Vec<Operand> as Extend<Operand>>::extend::<", m_extend),
    (r"^<impl Into<String> as Into<(std::string::)?String>>::into$", m_into_string),
    (r"^<impl AsRef<\[.*\]> as AsRef<\[.*\]>>::as_ref$", m_as_ref_slice),
    (r"^<&\[u32\] as IntoIterator>::into_iter$", m_slice_into_iter),
    (r"^core::slice::<impl \[u32\]>::iter$", m_slice_into_iter),
]
import itermodels  # noqa: E402
EXTRA_MODELS = EXTRA_MODELS + itermodels.MODELS       # std iterator idioms over concrete-length sequences (lower priority)


def builder_methods(mf):
    """[(name, file, start line)] of every method of `dr::Builder` that takes self by reference."""
    out = []
    for name, lst in mf.items.items():
        m = re.match(r"^build::<impl at rspirv/dr/build/(\w+)\.rs:[\d: ]+>::(\w+)$", name)
        if not m:
            continue
        for k, ln in lst:
            if k == "fn" and re.search(r"\(_1: &(mut )?build::Builder[,)]", mf.lines[ln]):
                out.append((m.group(2), m.group(1), ln))
    return sorted(set(out))


def synth(engine, ty, name):
    """Alternatives for one argument of type `ty`."""
    t = ty.strip()
    if t in sym.INT_TYPES:
        return [z3.BitVec(name, sym.INT_TYPES[t][0])]
    if t == "bool":
        return [z3.Bool(name)]
    m = re.match(r"^(?:std::option::)?Option<(.*)>$", t)
    if m:
        inner = synth(engine, m.group(1), name + ".v")
        return [sym.Adt("Option", "None", [])] + [sym.Adt("Option", "Some", [x]) for x in inner[:1]]
    if t.endswith("InsertPoint"):
        return [sym.Adt("build::InsertPoint", "End", []), sym.Adt("build::InsertPoint", "Begin", []),
                sym.Adt("build::InsertPoint", "FromBegin", [z3.BitVecVal(0, 64)]), sym.Adt("build::InsertPoint", "FromEnd", [z3.BitVecVal(0, 64)])]
    e = engine.reg.lookup(t)
    if e and e["clike"]:
        return [z3.BitVec(name, e["width"])]
    if t.startswith("&"):
        return [sym.Sym(name, t)]
    return [sym.Sym(name, t)]


def signature_args(engine, fn, max_combos=6, vary=None):
    """Argument tuples for a call; `vary`: only arguments whose type ends with this name take all their alternatives, the others
    their first one (so that `max_combos` enumerates that argument completely)."""
    alts = []
    for (loc, ty) in fn.args[1:]:
        a = synth(engine, ty, "arg" + loc)
        if vary is not None and not ty.strip().endswith(vary):
            a = a[-1:] if a and isinstance(a[0], sym.Adt) and a[0].ty == "Option" and len(a) > 1 else a[:1]
        alts.append(a)
    combos = list(itertools.islice(itertools.product(*alts), 0, 64))
    # keep combos diverse but bounded: first, last, and evenly spaced ones
    if len(combos) > max_combos:
        step = max(1, len(combos) // max_combos)
        combos = combos[::step][:max_combos - 1] + [combos[-1]]
    return combos


def instructions_of(module, fields):
    """Flat list [(container path, instruction value)] of every instruction held by a module value."""
    out = []
    mf = fields["Module"]
    for i, n in enumerate(mf):
        v = module.fields[i]
        if n == "functions":
            for fi, f in enumerate(v.items):
                ff = fields["Function"]
                for j, fnm in enumerate(ff):
                    x = f.fields[j]
                    if fnm in ("def", "end"):
                        if isinstance(x, sym.Adt) and x.variant == "Some":
                            out.append(("functions[%d].%s" % (fi, fnm), x.fields[0]))
                    elif fnm == "parameters":
                        for k, it in enumerate(x.items):
                            out.append(("functions[%d].parameters[%d]" % (fi, k), it))
                    elif fnm == "blocks":
                        for bi, b in enumerate(x.items):
                            bf = fields["Block"]
                            lab = b.fields[bf.index("label")]
                            if isinstance(lab, sym.Adt) and lab.variant == "Some":
                                out.append(("functions[%d].blocks[%d].label" % (fi, bi), lab.fields[0]))
                            for k, it in enumerate(b.fields[bf.index("instructions")].items):
                                out.append(("functions[%d].blocks[%d].instructions[%d]" % (fi, bi, k), it))
        elif n == "header":
            continue
        elif isinstance(v, sym.Arr):
            for k, it in enumerate(v.items):
                out.append(("%s[%d]" % (n, k), it))
        elif isinstance(v, sym.Adt) and v.variant == "Some":
            out.append((n, v.fields[0]))
    return out


def new_instructions(b0mod, b1mod, fields):
    old = [v for _, v in instructions_of(b0mod, fields)]
    out = []
    for path, v in instructions_of(b1mod, fields):
        if not any(v is o or base.same(v, o) for o in old):
            out.append((path, v))
    return out


def describe_instruction(engine, mem, inst):
    """(opcode value, rtype, rid, [(variant, payload)...]) of an instruction Adt built by Instruction::new."""
    if not isinstance(inst, sym.Adt):
        return None
    cls, rtype, rid, operands = inst.fields
    cv = mem.get(cls.root) if isinstance(cls, sym.Ref) else None
    opc = z3.simplify(cv.fields[1]) if cv is not None else None
    ops = []
    for o in operands.items:
        if isinstance(o, sym.Adt) and o.ty == "Extended":
            src = o.fields[0]
            if isinstance(src, sym.Adt) and src.ty == "Mapped":
                ops.append(("*", last_name(src.fields[1]), src.fields[0]))
            else:
                ops.append(("*", None, src))
        elif isinstance(o, sym.Adt):
            ops.append((o.variant, o.fields[0] if o.fields else None))
        else:
            ops.append(("?", o))
    return (opc.as_long() if opc is not None and z3.is_bv_value(opc) else opc, rtype, rid, ops)


def last_name(fnv):
    if isinstance(fnv, sym.FnV):
        return sym.strip_generics(fnv.name).replace(" ", "").split("::")[-1]
    if isinstance(fnv, sym.Adt) and fnv.variant:
        return fnv.variant          # a tuple-variant constructor used as a function (`.map(Operand::IdRef)`)
    return str(fnv)
