"""Generated part of the replay runner that depends on the current tree: one native call per public Builder method
(`builder_call <method> <state>`), with distinct argument values per position so that the emitted operand order is observable."""
import re
import tables

SKIP_RET = {"dr :: Module", "& dr :: Module", "& mut dr :: Module", "Builder"}


def arg_expr(ty, k, enums, masks, implicit=False):
    t = ty.replace(" ", "")
    if implicit and t == "Option<spirv::Word>":
        return "None"
    if t in ("spirv::Word", "u32"):
        return "%du32" % (100 + k)
    if t == "Option<spirv::Word>":
        return "Some(%du32)" % (100 + k)
    if t == "InsertPoint":
        return "ip()"
    if t == "u8":
        return "%du8" % (1 + k)
    if t == "u64":
        return "%du64" % (100 + k)
    if t == "Option<usize>":
        return "Some(0usize)"
    if t == "implIntoIterator<Item=dr::Operand>":
        return "Vec::<rspirv::dr::Operand>::new()"
    if t == "implIntoIterator<Item=spirv::Word>" or t == "implIntoIterator<Item=u32>":
        return "vec![%du32, %du32]" % (100 + k, 200 + k)
    if t in ("implAsRef<[u32]>", "implAsRef<[spirv::Word]>"):
        return "slice_arg(%du32)" % (100 + k)
    if t == "implInto<String>":
        return '"s%d"' % k
    if t == "Option<implInto<String>>" or t == "Option<implInto<String>>,":
        return 'Some("s%d")' % k
    if t == "dr::Instruction":
        return "rspirv::dr::Instruction::new(spirv::Op::Nop, None, None, vec![])"
    if t == "&dr::Instruction":
        return "&rspirv::dr::Instruction::new(spirv::Op::TypeVoid, None, None, vec![])"
    if t == "&str":
        return '"main"'
    if t == "implIntoIterator<Item=(dr::Operand,spirv::Word)>":
        return "vec![(rspirv::dr::Operand::LiteralBit32(%d), %du32)]" % (900 + k, 100 + k)
    if t in ("implIntoIterator<Item=(spirv::Word,spirv::Word)>", "implIntoIterator<Item=(spirv::Word,u32)>"):
        return "vec![(%du32, %du32)]" % (100 + k, 200 + k)
    m = re.match(r"^(Option<)?spirv::(\w+)>?$", t)
    if m:
        name = m.group(2)
        if name in masks:
            # a declared bit that takes no parameters (so that an empty additional_params list is conforming)
            with_params = set()
            ao = tables.additional_operands_table().get(name)
            if ao:
                for names_, _ops in ao["entries"]:
                    with_params.update(names_)
            free = [v for n_, v in masks[name]["consts"] if v and bin(v).count("1") == 1 and n_ not in with_params]
            bit = free[0] if free else 0
            e = "spirv::%s::from_bits(%d).unwrap()" % (name, bit)
        elif name in enums:
            e = "spirv::%s::%s" % (name, enums[name]["variants"][0][0])
        else:
            return None
        return "Some(%s)" % e if m.group(1) else e
    return None


def generate():
    enums, masks = tables.spirv_decls()
    sigs = tables.builder_signatures()
    o = ["""
pub trait Show { fn show(&self) -> String; }
impl Show for () { fn show(&self) -> String { "unit".to_string() } }
impl Show for u32 { fn show(&self) -> String { format!("id:{}", self) } }
impl Show for Option<u32> { fn show(&self) -> String { format!("{:?}", self) } }
impl Show for Option<(u8, u8)> { fn show(&self) -> String { format!("{:?}", self) } }
impl Show for Option<usize> { fn show(&self) -> String { format!("{:?}", self) } }
impl Show for Vec<usize> { fn show(&self) -> String { format!("{:?}", self) } }
impl Show for rspirv::dr::Instruction { fn show(&self) -> String { "inst".to_string() } }
impl<T: Show> Show for Result<T, rspirv::dr::Error> {
    fn show(&self) -> String {
        match self { Ok(v) => format!("Ok({})", v.show()), Err(e) => { let d = format!("{:?}", e); format!("Err({})", d.split('(').next().unwrap_or("")) } }
    }
}

fn inst_json(i: &rspirv::dr::Instruction) -> String {
    let ops: Vec<String> = i.operands.iter().map(|o| crate::ops::jstr(&format!("{:?}", o))).collect();
    format!("{{\\"opcode\\": {}, \\"opname\\": {}, \\"rtype\\": {}, \\"rid\\": {}, \\"operands\\": [{}]}}", i.class.opcode as u32, crate::ops::jstr(i.class.opname),
        i.result_type.map_or("null".to_string(), |v| v.to_string()), i.result_id.map_or("null".to_string(), |v| v.to_string()), ops.join(", "))
}

fn containers(m: &rspirv::dr::Module) -> Vec<(String, Vec<&rspirv::dr::Instruction>)> {
    let mut v: Vec<(String, Vec<&rspirv::dr::Instruction>)> = vec![
        ("capabilities".into(), m.capabilities.iter().collect()), ("extensions".into(), m.extensions.iter().collect()),
        ("ext_inst_imports".into(), m.ext_inst_imports.iter().collect()), ("memory_model".into(), m.memory_model.iter().collect()),
        ("entry_points".into(), m.entry_points.iter().collect()), ("execution_modes".into(), m.execution_modes.iter().collect()),
        ("debug_string_source".into(), m.debug_string_source.iter().collect()), ("debug_names".into(), m.debug_names.iter().collect()),
        ("debug_module_processed".into(), m.debug_module_processed.iter().collect()), ("annotations".into(), m.annotations.iter().collect()),
        ("types_global_values".into(), m.types_global_values.iter().collect())];
    for (fi, f) in m.functions.iter().enumerate() {
        v.push((format!("functions[{}].def", fi), f.def.iter().collect()));
        v.push((format!("functions[{}].end", fi), f.end.iter().collect()));
        v.push((format!("functions[{}].parameters", fi), f.parameters.iter().collect()));
        for (bi, b) in f.blocks.iter().enumerate() {
            v.push((format!("functions[{}].blocks[{}].label", fi, bi), b.label.iter().collect()));
            v.push((format!("functions[{}].blocks[{}].instructions", fi, bi), b.instructions.iter().collect()));
        }
    }
    v
}

static IP: std::sync::atomic::AtomicU32 = std::sync::atomic::AtomicU32::new(0);
/// Insertion point used for every `InsertPoint` argument of the next native call: 0 End, 1 Begin, 2 FromBegin(0), 3 FromEnd(0).
pub fn set_ip(n: u32) { IP.store(n, std::sync::atomic::Ordering::SeqCst); }
fn ip() -> rspirv::dr::InsertPoint {
    match IP.load(std::sync::atomic::Ordering::SeqCst) {
        1 => rspirv::dr::InsertPoint::Begin,
        2 => rspirv::dr::InsertPoint::FromBegin(0),
        3 => rspirv::dr::InsertPoint::FromEnd(0),
        _ => rspirv::dr::InsertPoint::End,
    }
}

/// slice arguments: one word normally; with insertion-point selector 7 ("duplicates") two equal words that also equal the id arguments' pattern
fn slice_arg(w: u32) -> Vec<u32> {
    if IP.load(std::sync::atomic::Ordering::SeqCst) == 7 { vec![w, w, 101u32] } else { vec![w] }
}

fn setup(state: u32) -> rspirv::dr::Builder {
    let mut b = rspirv::dr::Builder::new();
    if state >= 1 { b.begin_function(1, Some(50), spirv::FunctionControl::NONE, 2).unwrap(); }
    if state >= 2 { b.begin_block(Some(51)).unwrap(); b.nop().unwrap(); }
    // 3: the function has a finished first block and its SECOND block is the selected one
    if state >= 3 { b.branch(52).unwrap(); b.begin_block(Some(52)).unwrap(); b.nop().unwrap(); }
    b
}
"""]
    o.append("pub fn builder_call(name: &str, state: u32) -> String {")
    o.append("    let mut b = setup(state);")
    o.append("    let before: Vec<(String, usize)> = containers(b.module_ref()).into_iter().map(|(n, v)| (n, v.len())).collect();")
    o.append("    let memmodel_before = b.module_ref().memory_model.is_some();")
    o.append("    let res: String = match call_method(&mut b, name) { Some(r) => r, None => return \"{\\\"error\\\": \\\"unknown or skipped method\\\"}\".to_string() };")
    TAIL_MARK = len(o)
    o.append("fn call_method(b: &mut rspirv::dr::Builder, name: &str) -> Option<String> {")
    o.append("    Some(match name {")
    skipped = []
    seen = set()
    for s in sigs:
        if not s["pub"] or s["name"] in seen:
            continue
        if s["ret"] in SKIP_RET or "Module" in s["ret"]:
            skipped.append(s["name"])
            continue
        args = []
        ok = True
        for k, (pn, ty) in enumerate(s["params"]):
            e = arg_expr(ty, k, enums, masks)
            if e is None:
                ok = False
                break
            args.append(e)
        if not ok or s["name"] in ("new_from_module",):
            skipped.append(s["name"])
            continue
        seen.add(s["name"])
        o.append('        "%s" => b.%s(%s).show(),' % (s["name"], s["name"], ", ".join(args)))
    o.append('        _ => return None,')
    o.append("    })\n}")
    # same dispatcher with every Option<Word> argument None (implicit ids)
    o.append("fn call_method_implicit(b: &mut rspirv::dr::Builder, name: &str) -> Option<String> {")
    o.append("    Some(match name {")
    for s in sigs:
        if s["name"] not in seen or not s["pub"]:
            continue
        args = [arg_expr(ty, k, enums, masks, implicit=True) for k, (pn, ty) in enumerate(s["params"])]
        if None in args:
            continue
        o.append('        "%s" => b.%s(%s).show(),' % (s["name"], s["name"], ", ".join(args)))
    o.append('        _ => return None,')
    o.append("    })\n}")
    o.append("""
pub fn builder_ids(name: &str, state: u32, next_id: u32, mode: u32) -> String {
    let implicit = mode == 1;
    let b0 = setup(state);
    let (sf, sb) = (b0.selected_function(), b0.selected_block());
    let mut m = b0.module();
    if mode == 2 {
        // the selected block ends in the instruction that was given the most recently allocated id (as `undef(ty, None)` leaves it)
        if let (Some(f), Some(bl)) = (sf, sb) {
            m.functions[f].blocks[bl].instructions.push(rspirv::dr::Instruction::new(spirv::Op::Undef, Some(1), Some(next_id.wrapping_sub(1)), vec![]));
        }
    }
    let mut b = rspirv::dr::Builder::verif_from_parts(m, next_id, sf, sb);
    let r = if implicit { call_method_implicit(&mut b, name) } else { call_method(&mut b, name) };
    match r {
        Some(r) => format!("{{\\"result\\": {}, \\"next_id_before\\": {}, \\"next_id_after\\": {}}}", crate::ops::jstr(&r), next_id, b.verif_next_id()),
        None => "{\\"error\\": \\"unknown or skipped method\\"}".to_string(),
    }
}
""")
    o.append("""
/// the same implicit type request twice, on a module that already holds a type and a constant: ids and declaration counts
pub fn builder_type_twice(name: &str) -> String {
    builder_type_twice_mode(name, 0)
}

/// `explicit`: the second request carries explicit ids (it must then append a declaration with that id even though an identical
/// declaration exists)
pub fn builder_type_twice_mode(name: &str, mode: u32) -> String {
    let explicit = mode == 1;
    let mut b = setup(0);
    let t = b.type_int(32, 0);
    b.constant_bit32(t, 7);
    let n0 = b.module_ref().types_global_values.len();
    let r1 = match call_method_implicit(&mut b, name) { Some(r) => r, None => return "{\\"error\\": \\"unknown or skipped method\\"}".to_string() };
    let n1 = b.module_ref().types_global_values.len();
    if mode == 3 {
        // an id-less copy of the declaration just made is put in FRONT of all declarations (n1 counts it)
        if let Some(mut copy) = b.module_ref().types_global_values.last().cloned() {
            copy.result_id = None;
            b.module_mut().types_global_values.insert(0, copy);
        }
    }
    let n1 = if mode == 3 { b.module_ref().types_global_values.len() } else { n1 };
    if mode == 2 {
        // the declaration just made gets a decoration and a debug name before it is requested again
        if let Some(id) = b.module_ref().types_global_values.last().and_then(|i| i.result_id) {
            b.decorate(id, spirv::Decoration::Block, vec![]);
            b.name(id, "t");
        }
    }
    let r2 = if explicit { call_method(&mut b, name).unwrap_or_default() } else { call_method_implicit(&mut b, name).unwrap_or_default() };
    let n2 = b.module_ref().types_global_values.len();
    format!("{{\\"first\\": {}, \\"second\\": {}, \\"n0\\": {}, \\"n1\\": {}, \\"n2\\": {}}}", crate::ops::jstr(&r1), crate::ops::jstr(&r2), n0, n1, n2)
}
""")
    call_fn = o[TAIL_MARK:]
    del o[TAIL_MARK:]
    o.append("""    let after = containers(b.module_ref());
    let mut added: Vec<String> = vec![];
    for (n, v) in after.iter() {
        let old = before.iter().find(|(bn, _)| bn == n).map_or(0, |x| x.1);
        if n == "memory_model" {
            if v.len() == 1 && (!memmodel_before || name == "memory_model") {
                added.push(format!("{{\\"container\\": {}, \\"index\\": 0, \\"inst\\": {}}}", crate::ops::jstr(n), inst_json(v[0])));
            }
            continue;
        }
        if v.len() > old {
            // the new element is the one the pre-existing elements do not account for: report all beyond the old count by position
            for (k, i) in v.iter().enumerate() {
                let is_old = i.class.opcode == spirv::Op::Nop && i.operands.is_empty() && n.ends_with("instructions") && old == 1 && v.len() == 2 && (k == if name.starts_with("insert_") { 0 } else { 0 });
                if !is_old { added.push(format!("{{\\"container\\": {}, \\"index\\": {}, \\"inst\\": {}}}", crate::ops::jstr(n), k, inst_json(i))); }
            }
        }
    }
    format!("{{\\"result\\": {}, \\"sel_f\\": {}, \\"sel_b\\": {}, \\"added\\": [{}]}}", crate::ops::jstr(&res),
        b.selected_function().map_or("null".to_string(), |v| v.to_string()), b.selected_block().map_or("null".to_string(), |v| v.to_string()), added.join(", "))
}
""")
    o.extend(call_fn)
    o.append("""
pub fn builder_roundtrip(name: &str) -> String {
    use rspirv::binary::Assemble;
    let state = if name == "begin_function" { 0 } else if name == "begin_block" { 1 } else { 2 };
    let mut b = setup(state);
    b.set_version(1, 3);
    let r = match call_method(&mut b, name) { Some(r) => r, None => return "{\\"error\\": \\"unknown or skipped method\\"}".to_string() };
    if b.selected_block().is_some() { let _ = b.ret(); }
    if b.selected_function().is_some() { let _ = b.end_function(); }
    let m = b.module();
    let words = m.assemble();
    match rspirv::dr::load_words(&words) {
        Ok(m2) => {
            let w2 = m2.assemble();
            format!("{{\\"result\\": {}, \\"same\\": {}, \\"words\\": {}, \\"words2\\": {}}}", crate::ops::jstr(&r), w2 == words, words.len(), w2.len())
        }
        Err(e) => format!("{{\\"result\\": {}, \\"same\\": false, \\"load_error\\": {}}}", crate::ops::jstr(&r), crate::ops::jstr(&format!("{:?}", e))),
    }
}
""")
    # lift probe: a module holding the instruction of the Builder method named after the opcode, lifted natively
    import gtables as _g
    import re as _re
    def _snake(s_):
        out_ = []
        for i_, c_ in enumerate(s_):
            if c_.isupper():
                prev = s_[i_ - 1] if i_ > 0 else ""
                nxt = s_[i_ + 1] if i_ + 1 < len(s_) else ""
                if i_ > 0 and (prev.islower() or (prev.isupper() and nxt.islower())):
                    out_.append("_")
                out_.append(c_.lower())
            else:
                out_.append(c_)
        return "".join(out_)
    o.append("pub fn lift_probe(opcode: u32) -> String {\n    let name: &str = match opcode {")
    for e_ in _g.load_tables()["core"]:
        nm = _snake(e_["opname"])
        if nm in seen:
            o.append('        %d => "%s",' % (e_["opcode"], nm))
    o.append('        _ => return "{\\"error\\": \\"no builder method\\"}".to_string(),\n    };')
    o.append("""    let mut b = setup(2);
    b.set_version(1, 3);
    b.memory_model(spirv::AddressingModel::Logical, spirv::MemoryModel::GLSL450);
    let r = call_method(&mut b, name);
    if b.selected_block().is_some() { let _ = b.ret(); }
    if b.selected_function().is_some() { let _ = b.end_function(); }
    let m = b.module();
    let mut ctx_ops = String::new();
    let res = std::panic::catch_unwind(|| rspirv::lift::LiftContext::convert(&m).map(|sm| format!("{:?}", sm.ops)));
    match res {
        Ok(Ok(s)) => ctx_ops = s,
        Ok(Err(e)) => ctx_ops = format!("Err({:?})", e),
        Err(_) => ctx_ops = "panic".to_string(),
    }
    format!("{{\\"call\\": {}, \\"lifted_ops\\": {}}}", crate::ops::jstr(&format!("{:?}", r)), crate::ops::jstr(&ctx_ops))
}
""")
    # one native assemble per Operand variant
    import tables as _t
    from rtok import match_close as _mc, split_commas as _sc
    o.append("pub fn make_operand(variant: &str, v: u64) -> Result<rspirv::dr::Operand, String> {\n    use rspirv::dr::Operand;\n    let w = v as u32;\n    let op: Operand = match variant {")
    src_ = _t.src("rspirv/dr/autogen_operand.rs")
    tk = src_.toks
    for i in range(len(tk) - 2):
        if tk[i].v == "enum" and tk[i + 1].v == "Operand" and tk[i + 2].v == "{":
            k = _mc(tk, i + 2)
            for item in _sc(tk[i + 3:k]):
                j = 0
                while j < len(item) and item[j].v == "#":
                    j = _mc(item, j + 1) + 1
                iv = [x.v for x in item[j:]]
                if len(iv) < 4:
                    continue
                ty = "".join(iv[2:-1])
                name = iv[0]
                if ty in ("spirv::Word", "u32"):
                    o.append('        "%s" => Operand::%s(w),' % (name, name))
                elif ty == "u64":
                    o.append('        "%s" => Operand::%s(v),' % (name, name))
                elif ty == "String":
                    o.append('        "%s" => Operand::%s("ab".to_string()),' % (name, name))
                elif ty.startswith("spirv::") and ty[7:] in masks:
                    o.append('        "%s" => match spirv::%s::from_bits(w) { Some(x) => Operand::%s(x), None => return Err("{\\"error\\": \\"undeclared\\"}".to_string()) },' % (name, ty[7:], name))
                elif ty.startswith("spirv::") and ty[7:] in enums:
                    o.append('        "%s" => match spirv::%s::from_u32(w) { Some(x) => Operand::%s(x), None => return Err("{\\"error\\": \\"undeclared\\"}".to_string()) },' % (name, ty[7:], name))
            break
    o.append('        _ => return Err("{\\"error\\": \\"unknown variant\\"}".to_string()),\n    };\n    Ok(op)\n}')
    o.append("""
pub fn assemble_operand(variant: &str, v: u64) -> String {
    use rspirv::binary::Assemble;
    match make_operand(variant, v) {
        Ok(op) => format!("{{\\"words\\": [{}]}}", op.assemble().iter().map(|x| x.to_string()).collect::<Vec<_>>().join(", ")),
        Err(e) => e,
    }
}

pub fn id_ref_any(variant: &str, v: u64) -> String {
    match make_operand(variant, v) {
        Ok(mut op) => {
            let a = op.id_ref_any();
            let b = op.id_ref_any_mut().map(|r| *r);
            format!("{{\\"id_ref_any\\": {}, \\"id_ref_any_mut\\": {}}}", a.map_or("null".to_string(), |x| x.to_string()), b.map_or("null".to_string(), |x| x.to_string()))
        }
        Err(e) => e,
    }
}

pub fn disas_operand(variant: &str, v: u64) -> String {
    use rspirv::binary::Disassemble;
    match make_operand(variant, v) {
        Ok(op) => format!("{{\\"text\\": {}}}", crate::ops::jstr(&op.disassemble())),
        Err(e) => e,
    }
}
""")
    o.append("pub const SKIPPED_BUILDER_METHODS: &[&str] = &[%s];" % ", ".join('"%s"' % x for x in sorted(set(skipped))))
    # typed decoder requests: one arm per generated method of autogen_decode_operand.rs
    import re as _re
    dsrc = tables.src("rspirv/binary/autogen_decode_operand.rs").text
    arms = []
    for m_ in _re.finditer(r"pub fn (\w+)\(\s*&mut self,?\s*\) -> Result<spirv::(\w+)>", dsrc):
        meth, kind = m_.group(1), m_.group(2)
        bits = "v.bits()" if kind in masks else "v as u32"
        arms.append('        "%s" => match d.%s() { Ok(v) => format!("{{\\"ok\\": true, \\"bits\\": {}, \\"offset\\": {}}}", %s, d.offset()), '
                    'Err(e) => format!("{{\\"ok\\": false, \\"error\\": {}, \\"offset\\": {}}}", crate::ops::jstr(&format!("{:?}", e)), d.offset()) },' % (meth, meth, bits))
    o.append("pub fn typed_request(meth: &str, w: u32, empty: bool) -> String {\n    let full = w.to_le_bytes();\n    let bytes: &[u8] = if empty { &[] } else { &full };\n    let mut d = rspirv::binary::Decoder::new(bytes);\n    match meth {\n"
             + "\n".join(arms) + '\n        _ => "{\\"error\\": \\"unknown method\\"}".to_string(),\n    }\n}\n')
    # the same request on a decoder whose limit is already used up, followed by a raw word request (which must still be refused)
    arms2 = []
    for m_ in _re.finditer(r"pub fn (\w+)\(\s*&mut self,?\s*\) -> Result<spirv::(\w+)>", dsrc):
        arms2.append('        "%s" => d.%s().is_ok(),' % (m_.group(1), m_.group(1)))
    o.append("pub fn typed_request_at_limit(meth: &str, w: u32) -> String {\n    let mut bytes = w.to_le_bytes().to_vec();\n    bytes.extend_from_slice(&w.to_le_bytes());\n"
             "    let mut d = rspirv::binary::Decoder::new(&bytes);\n    d.set_limit(0);\n    let first_ok = match meth {\n" + "\n".join(arms2) +
             '\n        _ => return "{\\"error\\": \\"unknown method\\"}".to_string(),\n    };\n    let off = d.offset();\n    let next = d.word().is_ok();\n'
             '    format!("{{\\"first_ok\\": {}, \\"offset_after_first\\": {}, \\"next_word_ok\\": {}, \\"limit_reached\\": {}}}", first_ok, off, next, d.limit_reached())\n}\n')
    return "\n".join(o) + "\n"
