"""Generated part of the replay runner that depends on the current tree: one native call per public Builder method
(`builder_call <method> <state>`), with distinct argument values per position so that the emitted operand order is observable."""
import re
import tables

SKIP_RET = {"dr :: Module", "& dr :: Module", "& mut dr :: Module", "Builder"}


def arg_expr(ty, k, enums, masks):
    t = ty.replace(" ", "")
    if t in ("spirv::Word", "u32"):
        return "%du32" % (100 + k)
    if t == "Option<spirv::Word>":
        return "Some(%du32)" % (100 + k)
    if t == "InsertPoint":
        return "rspirv::dr::InsertPoint::End"
    if t == "u8":
        return "%du8" % (1 + k)
    if t == "u64":
        return "%du64" % (100 + k)
    if t == "Option<usize>":
        return "Some(0usize)"
    if t == "implIntoIterator<Item=dr::Operand>":
        return "vec![rspirv::dr::Operand::LiteralBit32(%d)]" % (900 + k)
    if t == "implIntoIterator<Item=spirv::Word>" or t == "implIntoIterator<Item=u32>":
        return "vec![%du32, %du32]" % (100 + k, 200 + k)
    if t in ("implAsRef<[u32]>", "implAsRef<[spirv::Word]>"):
        return "vec![%du32]" % (100 + k)
    if t == "implInto<String>":
        return '"s%d"' % k
    if t == "Option<implInto<String>>" or t == "Option<implInto<String>>,":
        return 'Some("s%d")' % k
    if t == "dr::Instruction":
        return "rspirv::dr::Instruction::new(spirv::Op::Nop, None, None, vec![])"
    if t == "&dr::Instruction":
        return "&rspirv::dr::Instruction::new(spirv::Op::TypeVoid, None, None, vec![])"
    if t == "&str":
        return '"main"'
    if t == "implIntoIterator<Item=(dr::Operand,spirv::Word)>":
        return "vec![(rspirv::dr::Operand::LiteralBit32(%d), %du32)]" % (900 + k, 100 + k)
    if t in ("implIntoIterator<Item=(spirv::Word,spirv::Word)>", "implIntoIterator<Item=(spirv::Word,u32)>"):
        return "vec![(%du32, %du32)]" % (100 + k, 200 + k)
    m = re.match(r"^(Option<)?spirv::(\w+)>?$", t)
    if m:
        name = m.group(2)
        if name in masks:
            bit = [v for _, v in masks[name]["consts"] if v][0]
            e = "spirv::%s::from_bits(%d).unwrap()" % (name, bit)
        elif name in enums:
            e = "spirv::%s::%s" % (name, enums[name]["variants"][0][0])
        else:
            return None
        return "Some(%s)" % e if m.group(1) else e
    return None


def generate():
    enums, masks = tables.spirv_decls()
    sigs = tables.builder_signatures()
    o = ["""
pub trait Show { fn show(&self) -> String; }
impl Show for () { fn show(&self) -> String { "unit".to_string() } }
impl Show for u32 { fn show(&self) -> String { format!("id:{}", self) } }
impl Show for Option<u32> { fn show(&self) -> String { format!("{:?}", self) } }
impl Show for Option<(u8, u8)> { fn show(&self) -> String { format!("{:?}", self) } }
impl Show for Option<usize> { fn show(&self) -> String { format!("{:?}", self) } }
impl Show for Vec<usize> { fn show(&self) -> String { format!("{:?}", self) } }
impl Show for rspirv::dr::Instruction { fn show(&self) -> String { "inst".to_string() } }
impl<T: Show> Show for Result<T, rspirv::dr::Error> {
    fn show(&self) -> String {
        match self { Ok(v) => format!("Ok({})", v.show()), Err(e) => { let d = format!("{:?}", e); format!("Err({})", d.split('(').next().unwrap_or("")) } }
    }
}

fn inst_json(i: &rspirv::dr::Instruction) -> String {
    let ops: Vec<String> = i.operands.iter().map(|o| crate::ops::jstr(&format!("{:?}", o))).collect();
    format!("{{\\"opcode\\": {}, \\"opname\\": {}, \\"rtype\\": {}, \\"rid\\": {}, \\"operands\\": [{}]}}", i.class.opcode as u32, crate::ops::jstr(i.class.opname),
        i.result_type.map_or("null".to_string(), |v| v.to_string()), i.result_id.map_or("null".to_string(), |v| v.to_string()), ops.join(", "))
}

fn containers(m: &rspirv::dr::Module) -> Vec<(String, Vec<&rspirv::dr::Instruction>)> {
    let mut v: Vec<(String, Vec<&rspirv::dr::Instruction>)> = vec![
        ("capabilities".into(), m.capabilities.iter().collect()), ("extensions".into(), m.extensions.iter().collect()),
        ("ext_inst_imports".into(), m.ext_inst_imports.iter().collect()), ("memory_model".into(), m.memory_model.iter().collect()),
        ("entry_points".into(), m.entry_points.iter().collect()), ("execution_modes".into(), m.execution_modes.iter().collect()),
        ("debug_string_source".into(), m.debug_string_source.iter().collect()), ("debug_names".into(), m.debug_names.iter().collect()),
        ("debug_module_processed".into(), m.debug_module_processed.iter().collect()), ("annotations".into(), m.annotations.iter().collect()),
        ("types_global_values".into(), m.types_global_values.iter().collect())];
    for (fi, f) in m.functions.iter().enumerate() {
        v.push((format!("functions[{}].def", fi), f.def.iter().collect()));
        v.push((format!("functions[{}].end", fi), f.end.iter().collect()));
        v.push((format!("functions[{}].parameters", fi), f.parameters.iter().collect()));
        for (bi, b) in f.blocks.iter().enumerate() {
            v.push((format!("functions[{}].blocks[{}].label", fi, bi), b.label.iter().collect()));
            v.push((format!("functions[{}].blocks[{}].instructions", fi, bi), b.instructions.iter().collect()));
        }
    }
    v
}

fn setup(state: u32) -> rspirv::dr::Builder {
    let mut b = rspirv::dr::Builder::new();
    if state >= 1 { b.begin_function(1, Some(50), spirv::FunctionControl::NONE, 2).unwrap(); }
    if state >= 2 { b.begin_block(Some(51)).unwrap(); b.nop().unwrap(); }
    b
}
"""]
    o.append("pub fn builder_call(name: &str, state: u32) -> String {")
    o.append("    let mut b = setup(state);")
    o.append("    let before: Vec<(String, usize)> = containers(b.module_ref()).into_iter().map(|(n, v)| (n, v.len())).collect();")
    o.append("    let memmodel_before = b.module_ref().memory_model.is_some();")
    o.append("    let res: String = match name {")
    skipped = []
    seen = set()
    for s in sigs:
        if not s["pub"] or s["name"] in seen:
            continue
        if s["ret"] in SKIP_RET or "Module" in s["ret"]:
            skipped.append(s["name"])
            continue
        args = []
        ok = True
        for k, (pn, ty) in enumerate(s["params"]):
            e = arg_expr(ty, k, enums, masks)
            if e is None:
                ok = False
                break
            args.append(e)
        if not ok or s["name"] in ("new_from_module",):
            skipped.append(s["name"])
            continue
        seen.add(s["name"])
        o.append('        "%s" => b.%s(%s).show(),' % (s["name"], s["name"], ", ".join(args)))
    o.append('        _ => return "{\\"error\\": \\"unknown or skipped method\\"}".to_string(),')
    o.append("    };")
    o.append("""    let after = containers(b.module_ref());
    let mut added: Vec<String> = vec![];
    for (n, v) in after.iter() {
        let old = before.iter().find(|(bn, _)| bn == n).map_or(0, |x| x.1);
        if n == "memory_model" {
            if v.len() == 1 && (!memmodel_before || name == "memory_model") {
                added.push(format!("{{\\"container\\": {}, \\"index\\": 0, \\"inst\\": {}}}", crate::ops::jstr(n), inst_json(v[0])));
            }
            continue;
        }
        if v.len() > old {
            // the new element is the one the pre-existing elements do not account for: report all beyond the old count by position
            for (k, i) in v.iter().enumerate() {
                let is_old = i.class.opcode == spirv::Op::Nop && i.operands.is_empty() && n.ends_with("instructions") && old == 1 && v.len() == 2 && (k == if name.starts_with("insert_") { 0 } else { 0 });
                if !is_old { added.push(format!("{{\\"container\\": {}, \\"index\\": {}, \\"inst\\": {}}}", crate::ops::jstr(n), k, inst_json(i))); }
            }
        }
    }
    format!("{{\\"result\\": {}, \\"sel_f\\": {}, \\"sel_b\\": {}, \\"added\\": [{}]}}", crate::ops::jstr(&res),
        b.selected_function().map_or("null".to_string(), |v| v.to_string()), b.selected_block().map_or("null".to_string(), |v| v.to_string()), added.join(", "))
}
""")
    o.append("pub const SKIPPED_BUILDER_METHODS: &[&str] = &[%s];" % ", ".join('"%s"' % x for x in sorted(set(skipped))))
    return "\n".join(o) + "\n"
