"""std iterator idioms over sequences of concrete length, as mirsym call models (summaries of std, listed as trusted).

A view of a Vec / slice is `Slice[ref, offset]`; an iterator is `CIter[Arr(items)]` whose items are what `next()` would
yield (references to the elements, tuples for `zip`, ...). Predicates / mapping closures are the REAL closures, executed
from their MIR once per element (`call_pure`); they must be single-path and effect-free, otherwise `Unsupported`."""
import z3
import sym
import mir


def slice_items(engine, st, v):
    """-> (ref to the Arr, offset, items) for a &Vec / &[T] / Slice view."""
    off = 0
    hi = None
    while True:
        x = sym._deref_arg(engine, st, v) if isinstance(v, sym.Ref) else v
        if isinstance(x, sym.Adt) and x.ty == "Slice":
            lo_ = x.fields[1] if len(x.fields) > 1 else 0
            if hi is not None:
                hi = lo_ + hi
            elif len(x.fields) > 2:
                hi = x.fields[2]
            off = lo_ + off
            v = x.fields[0]
            continue
        if isinstance(x, sym.Arr):
            return v, off, (x.items if hi is None else x.items[:hi])
        raise mir.Unsupported("slice view of %r" % (x,))


def m_deref(engine, st, fr, callee, args, ops):
    return sym.Adt("Slice", None, [args[0]])


def m_slice_iter(engine, st, fr, callee, args, ops):
    r, off, items = slice_items(engine, st, args[0])
    return sym.Adt("CIter", None, [sym.Arr([sym.Ref(r.root, r.path + (("index_c", i),)) for i in range(off, len(items))])])


def m_slice_len(engine, st, fr, callee, args, ops):
    r, off, items = slice_items(engine, st, args[0])
    return z3.BitVecVal(len(items) - off, 64)


def m_range_from(engine, st, fr, callee, args, ops):
    r, off, items = slice_items(engine, st, args[0])
    rng = args[1]
    start = rng.fields[0] if isinstance(rng, sym.Adt) else rng
    s = sym._concrete_index(start)
    if s is None:
        raise mir.Unsupported("symbolic range start")
    if s > len(items) - off:
        return sym.Panic(("slice start index out of range", fr.fn.name, fr.bb))
    return sym.Adt("Slice", None, [r, off + s])


def m_saturating_sub(engine, st, fr, callee, args, ops):
    a, b = args
    return z3.simplify(z3.If(z3.ULT(a, b), z3.BitVecVal(0, a.size()), a - b))


def _citer(engine, st, v):
    it = sym._deref_arg(engine, st, v) if isinstance(v, sym.Ref) else v
    if not (isinstance(it, sym.Adt) and it.ty == "CIter"):
        raise mir.Unsupported("iterator adapter on %r" % (it,))
    return it.fields[0].items


def _into_items(engine, st, v):
    x = sym._deref_arg(engine, st, v) if isinstance(v, sym.Ref) else v
    if isinstance(x, sym.Adt) and x.ty == "CIter":
        return x.fields[0].items
    if isinstance(x, sym.Arr) and isinstance(v, sym.Ref):
        return [sym.Ref(v.root, v.path + (("index_c", i),)) for i in range(len(x.items))]
    if isinstance(x, sym.Adt) and x.ty == "Slice":
        r, off, items = slice_items(engine, st, x)
        return [sym.Ref(r.root, r.path + (("index_c", i),)) for i in range(off, len(items))]
    if isinstance(x, sym.Arr):
        return list(x.items)
    raise mir.Unsupported("iterator adapter on %r" % (x,))


def m_zip(engine, st, fr, callee, args, ops):
    a = _citer(engine, st, args[0])
    b = _into_items(engine, st, args[1])
    n = min(len(a), len(b))
    return sym.Adt("CIter", None, [sym.Arr([sym.Adt("tuple", None, [a[i], b[i]]) for i in range(n)])])


def m_iter_identity(engine, st, fr, callee, args, ops):
    _citer(engine, st, args[0])
    return args[0]


def _pred_conditions(engine, st, items, clo, by_ref=False):
    if not isinstance(clo, sym.FnV):
        raise mir.Unsupported("predicate %r" % (clo,))
    fn = engine.resolve_fn(clo.name)
    cell = ("h", engine.fresh_name("clo"))
    st.mem[cell] = clo
    conds = []
    for it in items:
        if by_ref:       # take_while / filter / find hand the predicate `&Self::Item`
            icell = ("h", engine.fresh_name("item"))
            st.mem[icell] = it
            it = sym.Ref(icell, ())
        res = engine.call_pure(st, fn, [sym.Ref(cell, (), True), it])
        if len(res) != 1 or res[0].status != "return":
            raise mir.Unsupported("the predicate forks or panics: %r" % (res,))
        c = res[0].value
        conds.append(c if z3.is_bool(c) else c != 0)
    return conds


def m_all(engine, st, fr, callee, args, ops):
    conds = _pred_conditions(engine, st, _citer(engine, st, args[0]), args[1])
    return z3.simplify(z3.And(*conds)) if conds else z3.BoolVal(True)


def m_any(engine, st, fr, callee, args, ops):
    conds = _pred_conditions(engine, st, _citer(engine, st, args[0]), args[1])
    return z3.simplify(z3.Or(*conds)) if conds else z3.BoolVal(False)


def m_position(engine, st, fr, callee, args, ops):
    """index (relative to the iterator's start) of the first element the predicate accepts"""
    conds = _pred_conditions(engine, st, _citer(engine, st, args[0]), args[1])
    alts, none_before = [], []
    for k, c in enumerate(conds):
        alts.append((z3.simplify(z3.And(*(none_before + [c]))), sym.Adt("Option", "Some", [z3.BitVecVal(k, 64)])))
        none_before.append(z3.Not(c))
    alts.append((z3.simplify(z3.And(*none_before)) if none_before else True, sym.Adt("Option", "None", [])))
    return sym.Fork(alts)


def m_take_while(engine, st, fr, callee, args, ops):
    """`iter.take_while(pred)`: the longest prefix whose elements all satisfy the (real, MIR-executed) predicate; the predicate's
    answers must be concrete here."""
    items = _citer(engine, st, args[0])
    conds = _pred_conditions(engine, st, items, args[1], by_ref=True)
    out = []
    for it, c in zip(items, conds):
        c = z3.simplify(c)
        if z3.is_true(c):
            out.append(it)
        elif z3.is_false(c):
            break
        else:
            raise mir.Unsupported("take_while with a symbolic predicate value")
    return sym.Adt("CIter", None, [sym.Arr(out)])


def m_citer_next(engine, st, fr, callee, args, ops):
    r = args[0]
    it = sym._deref_arg(engine, st, r)
    if isinstance(it, sym.Adt) and it.ty == "SliceIterC":
        return sym.m_slice_iter_next(engine, st, fr, callee, args, ops)
    if not (isinstance(it, sym.Adt) and it.ty == "CIter"):
        raise mir.Unsupported("next on %r" % (it,))
    items = it.fields[0].items
    if not items:
        return sym.Adt("Option", "None", [])
    engine.write_at(st, r.root, list(r.path), sym.Adt("CIter", None, [sym.Arr(items[1:])]))
    return sym.Adt("Option", "Some", [items[0]])


def m_count(engine, st, fr, callee, args, ops):
    return z3.BitVecVal(len(_citer(engine, st, args[0])), 64)


MODELS = [
    (r"^<Vec<.*> as Deref>::deref$", m_deref),
    (r"^core::slice::<impl \[.*\]>::iter$", m_slice_iter),
    (r"^core::slice::<impl \[.*\]>::len$", m_slice_len),
    (r"Index<std::ops::RangeFrom<usize>>>::index$", m_range_from),
    (r"^core::num::<impl usize>::saturating_sub$", m_saturating_sub),
    (r"^<std::slice::Iter<'_, .*> as Iterator>::zip::<", m_zip),
    (r"^<std::slice::Iter<'_, .*> as IntoIterator>::into_iter$", m_iter_identity),
    (r" as Iterator>::take_while::<", m_take_while),
    (r"^<(TakeWhile|Zip|StepBy)<.*> as IntoIterator>::into_iter$", m_iter_identity),
    (r"^<(std::slice::Iter<'_, .*>|TakeWhile<.*>|Zip<.*>|StepBy<.*>) as Iterator>::next$", m_citer_next),
    (r" as Iterator>::all::<", m_all),
    (r" as Iterator>::any::<", m_any),
    (r" as Iterator>::position::<", m_position),
    (r" as Iterator>::count$", m_count),
]
